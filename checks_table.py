"""Per-property table of sub-checks (engine, build mode, shards, thresholds). See DESIGN.md 3.

Fields of a sub-check:
  engine   name registered in harness/cmd/vh
  mode     plain | vt | race        (build mode, DESIGN 2.1)
  shards   {tier: processes}        cases are striped over the shards
  reps     {tier: n}                repeat the whole sub-check n times with derived seeds (race runs)
  tiers    which tiers run it (default both)
  gomaxprocs, ulimit_kb, timeout {tier: s}, env
  min_nontrivial {tier: n}          observation threshold (below it the run is inconclusive)
  require_stats {name: min}         boundary/hook hit counters that must be reached
  hang_is_violation                 a watchdog kill is confirmed on the single case and then counts
"""

Q, T = "quick", "thorough"

TRUSTED = ("Go runtime and compiler; the harness itself (generators, oracles, strict parser); "
           "fasthttp as the transport the code under test is built on")

PROPS = {
    "SMOKE": {
        "claimed": False,
        "level": "exploration",
        "rule": "smoke test of the driver",
        "subs": [
            {"engine": "smoke", "mode": "plain", "shards": {Q: 2, T: 2}},
            {"engine": "smoke", "mode": "vt", "shards": {Q: 2, T: 2}},
            {"engine": "smoke", "mode": "race", "shards": {Q: 1, T: 1}},
        ],
    },
    "C01": {
        "level": "exploration",
        "technique": "runtime monitor: solo-differential oracle over generated route tables (real dispatch vs registration-order filter of routes observed alone)",
        "level_text": "Generated route tables (methods, Use prefixes, groups, Route chains, duplicates, path/method-overriding handlers) are dispatched through App.Handler(); the handler trace, status and Allow set of every request are compared with the registration-order composition of per-route match decisions observed on singleton apps built by the same API call. Held on the sampled tables/requests/configs; not a proof.",
        "level_note": TRUSTED + "; per-route decisions are observed on the real router in isolation, so a defect that changes a route's behaviour identically alone and in company is invisible here (C02/C03 judge single routes).",
        "rule": "case = (config, route table of 1-14 API calls, 40-60 requests); non-trivial = expected trace has >=2 handlers, or path <=3 bytes (index boundary), or a path/method override fires, or the answer is 405; distinct by (config, expected trace, method, path, status)",
        "subs": [
            {"engine": "route.dispatch", "mode": "plain", "shards": {Q: 16, T: 16},
             "min_nontrivial": {Q: 20000, T: 500000}, "require_stats": {"overrides": 1000, "status405": 1000}},
        ],
    },
    "C02": {
        "level": "exploration",
        "technique": "runtime monitor: in-handler invariant (Params reproduce the path, constraints hold) over generated patterns and hostile paths",
        "level_text": "Patterns are generated as token lists (named/optional/greedy parameters, escaped literals, every built-in constraint and a custom one, up to two constraints per parameter); for every request that reaches the handler the monitor re-substitutes Params into the token list and evaluates each constraint with an independent three-valued evaluator written from the documentation; requests with violating values must get 404. Held on the sampled patterns/paths.",
        "level_note": TRUSTED + "; constraint semantics where the documentation is silent (e.g. '+5' for int, 'inf' for float, non-ASCII letters for alpha) are treated as unknown and never asserted.",
        "rule": "case = (pattern, config, 30-40 paths incl. the pattern text itself, valid fillings, one-value-violating fillings, mutations); non-trivial = request to a pattern with >=1 constrained parameter (handler ran, or correctly rejected); distinct by (pattern, path)",
        "subs": [
            {"engine": "route.sound", "mode": "plain", "shards": {Q: 16, T: 16},
             "min_nontrivial": {Q: 200000, T: 380000}, "require_stats": {"ran": 10000, "not_run": 10000}},
        ],
    },
    "C03": {
        "level": "exploration",
        "technique": "runtime monitor: by-construction oracle, bounded-exhaustive enumeration of delimited patterns x legal fillings x 8 configs, plus RoutePatternMatch-vs-dispatch differential",
        "level_text": "All delimited patterns of up to 5 (quick) / 6 (thorough) items over a 10-item alphabet, all legal fillings over a 6-value alphabet and the 8 routing configurations are dispatched through a real app (so the 3-byte index is in the loop); match and captured values are known by construction; case, trailing-slash and percent variants and RoutePatternMatch are compared with the dispatch decision. Exhaustive for the bounded space, sampled beyond it (random patterns up to 10 items).",
        "level_note": TRUSTED + "; the legality side-condition of the statement is implemented conservatively (overlapping and case-folded occurrences of a following literal also exclude a filling).",
        "rule": "enumerated: every item string in the delimited class x every legal filling x 8 configs; random: patterns of 3-10 items x 6 fillings; non-trivial = pattern with >=1 parameter; distinct by (pattern, path, config)",
        "exhaustive_stat": "route.complete.enum_space_complete",
        "subs": [
            {"engine": "route.complete", "mode": "plain", "shards": {Q: 16, T: 16},
             "min_nontrivial": {Q: 100000, T: 300000}, "require_stats": {"enum_patterns": 1000},
             "timeout": {Q: 600, T: 3000}},
        ],
    },
    "C04": {
        "level": "exploration",
        "technique": "runtime monitor: differential between two real compositions (mounted sub-apps vs Group(prefix) registration; groups vs spelled-out paths)",
        "level_text": "Generated trees of apps/groups (nesting <=3, <=4 mounts, prefixes '/', trailing slash, parameterised, routes added after mounting) are built twice from the same handler set - with Use(prefix, subApp) and with Group(prefix) at the same position - and answer the same requests; handler trace, every declared parameter, status and body must agree. Same for Group prefixes vs full paths. Held on the sampled trees/requests.",
        "level_note": TRUSTED + "; both sides are the real framework, so a defect common to mounting and grouping is invisible here (C01-C03 judge routing itself).",
        "rule": "case = (config, tree of <=14 route statements, 40-60 requests); non-trivial = request whose trace enters a mounted app (resp. a group); distinct by (case, method, path)",
        "subs": [
            {"engine": "route.mount", "mode": "plain", "shards": {Q: 16, T: 16},
             "min_nontrivial": {Q: 10000, T: 380000}},
        ],
    },

    "C05": {
        "level": "exploration",
        "technique": "runtime monitor: history-vs-fresh-app differential on the probe's full observation vector over keep-alive connections with observed context reuse; id-uniqueness oracle under concurrent connections (race build)",
        "level_text": "Scripted keep-alive connections (1-12 history requests: params, locals, view binds, redirects with flash messages and old input, valid/truncated/partial/garbage flash cookies, failing binds, errors, 404/405, malformed requests) are served through fasthttp's ServeConn with one P so that the pooled context is observably reused; the probe's observation vector and raw response must equal those of the same probe on a fresh app. A race build interleaves 8 connections and checks that every observed value carries the current request's id, with the race detector on.",
        "level_note": TRUSTED + "; only probes that really ran on a previously used context count as non-trivial; state an application shares on purpose is not part of the vector.",
        "rule": "case = (app constructor, history of requests, probe); non-trivial = probe ran on a context object already used by the history (pointer logged); distinct by case id",
        "subs": [
            {"engine": "ctxiso.isolation", "mode": "plain", "gomaxprocs": 1, "shards": {Q: 16, T: 16},
             "min_nontrivial": {Q: 1500, T: 40000}},
            {"engine": "ctxiso.isolation.race", "mode": "race", "shards": {Q: 4, T: 16}, "reps": {Q: 1, T: 3},
             "min_nontrivial": {Q: 2, T: 2}},
        ],
    },
    "C06": {
        "level": "exploration",
        "technique": "runtime monitor: value-stability oracle (live reference vs clone after N further requests on the same connection) with a positive control (Immutable off must change)",
        "level_text": "With Immutable on, a capture handler calls every string/byte accessor and binder and keeps the live references; after 1/3/10 further requests on the same keep-alive connection (one P, same context and buffers) each reference must still equal its clone. The identical run with Immutable off must show the reference changing, otherwise the pair is not counted.",
        "level_note": TRUSTED + "; reuse of the connection buffers is established per (accessor, request) by the positive control, not assumed.",
        "rule": "case = (request with every component populated, N follow-up requests); non-trivial = (accessor, request) pairs whose positive control changed; distinct by (case, accessor)",
        "subs": [
            {"engine": "ctxiso.immutable", "mode": "plain", "gomaxprocs": 1, "shards": {Q: 16, T: 16},
             "min_nontrivial": {Q: 10000, T: 200000}},
        ],
    },
    "C08": {
        "level": "exploration",
        "technique": "runtime monitor: recording error handlers with unique ids, rule oracle on the mount-tree spec, 64-512 repeated evaluations on the same and on freshly built apps (map-order nondeterminism)",
        "level_text": "Generated mount trees (sibling prefixes that are string prefixes of each other, nesting <=3, apps with/without/with failing error handlers) get errors raised at scripted chain positions; every request is evaluated 64 (thorough 512) times on the same app and on fresh builds; exactly one handler must run, the one the segment-boundary/innermost rule selects, every time; default handler status and failing-handler 500 are checked. A race build runs concurrent requests through one tree.",
        "level_note": TRUSTED + "; for case-variant paths under case-insensitive routing both readings of 'contains' are accepted (not a mix).",
        "rule": "case = (mount tree, request, raise position); non-trivial = >=2 candidate prefixes are string prefixes of the path; distinct by (tree, request)",
        "subs": [
            {"engine": "errs", "mode": "plain", "shards": {Q: 16, T: 16}, "min_nontrivial": {Q: 2000, T: 100000},
             "timeout": {Q: 600, T: 3000}},
            {"engine": "errs.race", "mode": "race", "shards": {Q: 4, T: 16}, "min_nontrivial": {Q: 100, T: 1000},
             "timeout": {Q: 600, T: 3000}},
        ],
    },
    "C09": {
        "level": "exploration",
        "technique": "runtime monitor: composition-law oracle over observed solo acceptability (real Accepts* called per range), header built from the generator's own structure; race build for the pooled parameter maps",
        "level_text": "Accept-style headers from the RFC 9110 grammar (wildcards, q-values with 0-3 decimals, OWS, quoted parameters, duplicates, ties) and offer lists are given to Accepts/AcceptsCharsets/AcceptsEncodings/AcceptsLanguages/Format; the result must be the first offer acceptable to the most preferred non-zero range (q, specificity, #params, position), acceptability of one range for one offer being observed on the real function; literal clauses (result in offers, q=0 never selects, range parameters present in the offer, absent header selects the first offer) are checked independently; arbitrary bytes for totality.",
        "level_note": TRUSTED + "; the weight is always the last parameter of a range; language-tag specificity is only '*' vs non-'*'.",
        "rule": "case = (header, offers, function); non-trivial = >=2 ranges that accept different offers; distinct by (header, offers)",
        "subs": [
            {"engine": "nego", "mode": "plain", "shards": {Q: 16, T: 16}, "min_nontrivial": {Q: 20000, T: 500000},
             "timeout": {Q: 600, T: 3400}},
            {"engine": "nego.race", "mode": "race", "shards": {Q: 4, T: 16}, "tiers": [Q, T],
             "min_nontrivial": {Q: 100, T: 1000}, "timeout": {Q: 600, T: 3400}},
        ],
    },
    "C10": {
        "level": "exploration",
        "technique": "runtime monitor: paired-request non-interference oracle (twin with/without forwarding headers) with a net/netip trust reference on the parsed configuration",
        "level_text": "For generated proxy configurations (listed addresses in any spelling, CIDRs, loopback/private/link-local classes) and peers (v4, v6, mapped, zoned) two requests that differ only in forwarding headers are driven with a chosen RemoteAddr; for an untrusted peer all of IP/Host/Hostname/Scheme/BaseURL/Secure/Subdomains must be equal and connection-derived; for a trusted peer the documented forwarded values are asserted in the unambiguous cases; Secure iff Scheme==https and (validation on) IP() is a valid address, always.",
        "level_note": TRUSTED + "; ambiguous trusted cases (conflicting scheme headers, duplicate header instances, whitespace-damaged lists) are counted, not asserted.",
        "rule": "case = (proxy config, peer, forwarding header values, TLS flag); non-trivial = forwarding header present and peer untrusted, or trusted-unambiguous; distinct by (config, peer, headers)",
        "subs": [
            {"engine": "proxy", "mode": "plain", "shards": {Q: 16, T: 16}, "min_nontrivial": {Q: 30000, T: 1000000}},
        ],
    },
    "C11": {
        "level": "exploration",
        "technique": "runtime monitor: client->server->Bind round-trip equality over generated struct types and values (in-memory listener), totality on hostile input; race build on the binder/decoder pools",
        "level_text": "Values of 192 generated struct types (strings, all integer/float widths, bools and slices of them; nested for JSON/XML/CBOR) are sent by the bundled client as query, form, multipart, header, cookie, JSON, XML or CBOR and bound on the server from the same source inside the handler; DeepEqual must hold, also with EnableSplittingOnParsers for comma-free values; hostile raw inputs into every binder must not panic and must yield 400 under automatic error handling.",
        "level_note": TRUSTED + "; the value domain per source is what HTTP can carry there (stated in the evidence notes); field names with bracket/dot path notation are outside the statement and only counted.",
        "rule": "case = (struct type, value, source, splitting, binder entry point); non-trivial = value with a reserved/escaped character or a slice of length != 1; distinct by (type, source, value)",
        "subs": [
            {"engine": "bind", "mode": "plain", "shards": {Q: 16, T: 16}, "min_nontrivial": {Q: 8000, T: 500000},
             "timeout": {Q: 600, T: 3000}},
            {"engine": "bind.race", "mode": "race", "shards": {Q: 4, T: 16}, "min_nontrivial": {Q: 2, T: 2},
             "timeout": {Q: 600, T: 3400}},
        ],
    },
    "C15": {
        "level": "exploration",
        "technique": "runtime monitor under virtual time: session state-machine specification checked after every operation/request (handler view, emitted id, storage contents); scheduler + porcupine for two concurrent requests of one client; race build with 16 clients",
        "level_text": "Histories of get/set/delete/save/destroy/regenerate/reset/timeout operations by up to 4 clients (honest, forging, replaying) through the middleware and the store API run on the Go runtime's fake clock, with time advanced to just before/at/after idle and absolute deadlines; after every step the data, id and freshness seen by the handler, the id emitted and the storage contents must equal the specification; ids the server did not issue are never adopted. Two concurrent requests of one client are interleaved exhaustively at storage boundaries and checked for linearizability (last save wins).",
        "level_note": TRUSTED + "; Go runtime faketime clock; porcupine; memory-storage TTLs are whole seconds, so a +-1 s window is accepted there (exact with the instrumented storage).",
        "rule": "case = (config, clients, history of 1-25 requests with 0-6 ops each, time advances); non-trivial = history with destroy/regenerate/reset/expiry followed by a use of the old id; distinct by case id",
        "subs": [
            {"engine": "session", "mode": "vt", "shards": {Q: 16, T: 16}, "min_nontrivial": {Q: 1500, T: 100000},
             "timeout": {Q: 600, T: 3000}},
            {"engine": "session.race", "mode": "race", "shards": {Q: 2, T: 8}, "min_nontrivial": {Q: 2, T: 2},
             "timeout": {Q: 600, T: 3000}},
        ],
    },
    "C16": {
        "level": "fault_enumeration",
        "technique": "runtime monitor under virtual time: token-lifecycle specification + independent origin rule on parsed origins decide 'reached' for every request; storage faults enumerated one call at a time",
        "level_text": "Histories by 1-3 clients (fetch, own/foreign/forged/stale token, expiry, single-use reuse, DeleteToken, cookie mismatch) over all extractors and the storage/session backends run on the fake clock; the protected handler may be entered iff the specification says so (issued, live, matching cookie, origin rule). A large Origin/Referer/Host/scheme matrix (look-alikes, wildcard sub-domains, null, ports, http/https) is judged by an origin rule written on parsed origins. Every storage call of short histories is failed once (get/set/delete x call index): a failed lookup or consume must reject.",
        "level_note": TRUSTED + "; Go runtime faketime clock; expiry judged only >=2 s away from the deadline; 'Origin: null' is read as absent.",
        "rule": "case = history or origin probe or (history, fault plan); non-trivial = unsafe request with a token that was live at some point, or with Origin/Referer present; distinct by case id and request index; fault plans = (call kind, call index) over fixed scripts and random short histories",
        "subs": [
            {"engine": "csrf", "mode": "vt", "shards": {Q: 16, T: 16}, "min_nontrivial": {Q: 20000, T: 1000000},
             "require_stats": {"fault_plans": 500}, "timeout": {Q: 600, T: 3400}},
        ],
    },
    "C19": {
        "level": "exploration",
        "technique": "runtime monitor: independent CORS policy evaluator on serialized origins built from the generator's structure; expected header set per request class compared with the real response",
        "level_text": "Generated configurations (exact and wildcard-subdomain origin lists, allow function, credentials, private network, max age, methods/headers) and requests (no Origin, simple, OPTIONS without ACRM, preflight; origins with case variants, ports, sub-sub-domains, look-alike and suffix-sharing hosts, null, IPv6) are driven through the middleware; ACAO/ACAC/Vary/ACAM/ACAH/ACMA/ACEH/private-network headers, status and handler entry must equal what the policy evaluator derives; invalid configurations must panic at construction.",
        "level_note": TRUSTED + "; origins outside the serialized-origin syntax are only used for the never-'*'-with-credentials and no-panic clauses.",
        "rule": "case = (config, request); non-trivial = request with an Origin and a non-allow-all configuration; distinct by (config, request)",
        "subs": [
            {"engine": "cors", "mode": "plain", "shards": {Q: 16, T: 16}, "min_nontrivial": {Q: 50000, T: 2000000},
             "timeout": {Q: 600, T: 3000}},
            {"engine": "cors.conc", "mode": "race", "shards": {Q: 4, T: 16}, "min_nontrivial": {Q: 500, T: 10000},
             "timeout": {Q: 600, T: 3000}},
        ],
    },
    "C20": {
        "level": "exploration",
        "technique": "runtime monitor: issue/replay/tamper scripts; strict Set-Cookie parsing of wire bytes; exhaustive single-byte substitution/truncation/extension of issued ciphertexts judged by a base64-identity rule (format-agnostic rule when the encoding is not recognised); concurrent clients through one middleware instance under the race detector",
        "level_text": "Behind the middleware handlers set cookies with unique plaintexts (binary, empty, long): the wire Set-Cookie must not contain the plaintext and must differ between two issues; replayed cookies must reach the handler with the original value; every single-byte substitution at every position (x3 values quick, x255 thorough), truncation, extension and other-key ciphertext must reach the handler as empty unless it decodes to the identical ciphertext bytes; excepted names pass unchanged; several cookies per request incl. duplicates are checked through Cookies() and VisitAllCookie.",
        "level_note": TRUSTED + "; a ciphertext issued for name A and presented under name B is not treated as forged (nothing in the statement binds value to name).",
        "rule": "case = issue/replay script, tamper base x mutation, or multi-cookie request; non-trivial = tamper cases and requests with >=2 cookies; distinct by (base, mutation) / request",
        "subs": [
            {"engine": "encc", "mode": "plain", "shards": {Q: 16, T: 16}, "min_nontrivial": {Q: 2000, T: 50000},
             "timeout": {Q: 600, T: 3000}},
            {"engine": "encc.conc", "mode": "race", "shards": {Q: 4, T: 16}, "min_nontrivial": {Q: 20, T: 500},
             "timeout": {Q: 600, T: 3000}},
        ],
    },

    "C13": {
        "level": "exploration",
        "technique": "runtime monitor under virtual time: executable window specification per key judges timed histories; deterministic scheduler (exhaustive DFS) + porcupine linearizability for concurrent requests on an instrumented storage; race-detector stress with a pinned coarse clock",
        "level_text": "Timed histories (fixed/sliding, memory and instrumented storage, dynamic MaxFunc, skip options with handlers returning statuses and errors, slow handlers, advances around window edges) run on the Go runtime's fake clock and are judged against a sequential window specification written from the documentation: never more handler executions than the limit MaxFunc(c) permits, no rejection while budget remains, 429 + Retry-After = time to reset, other keys unaffected. 2-4 concurrent requests are interleaved at every storage/callback/handler boundary (exhaustively for <=3 workers) and the recorded acquire/refund history is checked for linearizability; a race build hammers the memory backend with 64-512 goroutines under a pinned clock.",
        "level_note": TRUSTED + "; Go runtime faketime clock; porcupine. The documentation does not pin the rounding of the sliding window's weighted part: over-admission is reported only when even the truncated rate exceeds the limit, rejection-with-budget only when even the real-valued rate fits. X-RateLimit-* header values are counted, not judged (not part of the statement).",
        "rule": "case = timed history of 1-4 keys / one scheduled scenario / one parallel burst; non-trivial = history with at least one admitted and one rejected request; distinct by (config, outcome string) resp. schedule key",
        "subs": [
            {"engine": "limiter", "mode": "vt", "shards": {Q: 16, T: 16}, "min_nontrivial": {Q: 1000, T: 50000},
             "timeout": {Q: 600, T: 3400}},
            {"engine": "limiter.race", "mode": "race", "shards": {Q: 2, T: 8}, "reps": {Q: 1, T: 3}, "min_nontrivial": {Q: 2, T: 2},
             "timeout": {Q: 600, T: 3000}},
        ],
    },
    "C18": {
        "level": "exploration",
        "technique": "runtime monitor: echo-server fidelity/precedence/determinism oracle (32 builds per configuration); cookie-jar specification under virtual time; deterministic scheduler parking the completing goroutine at the client.doneWon hook for response ownership; race-detector stress",
        "level_text": "An echo server over an in-memory listener returns the parsed request: every configured header, query parameter, form field, file, cookie, path parameter, body, user agent and referer must arrive with its value, request level winning where documented, identically over 32 builds of the same configuration. Jar histories (Set/SetByHost/SetKeyValue, response cycles incl. deletions and Max-Age, Get, time advance, Release, release of returned cookies) over several hosts/ports/paths are judged against a set-of-cookies specification on the fake clock. For ownership every request carries an id the server echoes; the scheduler parks the goroutine that won the completion flag at the verif hook while the caller times out and the next request reuses the pooled response; every returned response must carry its own request's id. A race build runs 32 goroutines with mixed timeouts/cancellations on one client.",
        "level_note": TRUSTED + "; Go runtime faketime clock; the verif hook client.doneWon. Path-parameter values exclude bytes whose escaping is debatable; cookie '/a' vs request '/ab' (string prefix, not path prefix) is not asserted either way.",
        "rule": "fidelity: case = client+request configuration, non-trivial = >=2 component kinds set at both levels; jar: history with >=2 hosts and one expiry; ownership: schedule in which a timeout fires while the completing goroutine is parked; distinct by case id / schedule key",
        "subs": [
            {"engine": "client.fidelity", "mode": "plain", "shards": {Q: 16, T: 16}, "min_nontrivial": {Q: 1000, T: 50000},
             "timeout": {Q: 600, T: 3000}},
            {"engine": "client.jar", "mode": "vt", "shards": {Q: 16, T: 16}, "min_nontrivial": {Q: 300, T: 20000}},
            {"engine": "client.ownership", "mode": "vt", "shards": {Q: 16, T: 16}, "min_nontrivial": {Q: 100, T: 5000},
             "require_stats": {"hook_hits": 100}, "timeout": {Q: 600, T: 3000}},
            {"engine": "client.race", "mode": "race", "shards": {Q: 1, T: 4}, "reps": {Q: 1, T: 3}, "min_nontrivial": {Q: 2, T: 2},
             "timeout": {Q: 600, T: 3000}},
        ],
    },

    "C14": {
        "level": "exploration",
        "technique": "runtime monitor under virtual time: origin executions carry unique ids, hits are judged for transparency/freshness/bypass/admission and the MaxBytes bound on an instrumented storage; deterministic scheduler with the cache.afterGet hook (exhaustive DFS for 2-3 workers) for panic/deadlock/accounting; race-detector stress with continuously expiring entries",
        "level_text": "Timed histories (1-5 keys, expirations and ExpirationGenerator, invalidator, request Cache-Control, statuses, methods, bodies up to 4 KiB against MaxBytes 0/1 KiB/4 KiB, StoreResponseHeaders, custom keys, memory and instrumented storage) run on the fake clock; every response marked hit must be byte-equal to the recorded origin execution for that method+key, never older than its expiration (+1 s for the coarse clock), never after an invalidation, never for no-cache; no-store never creates an entry; non-cacheable statuses/methods never hit later; the sum of stored bodies never exceeds MaxBytes. 2-4 concurrent requests around an expiry are interleaved at the verif hook, storage calls, callbacks and the origin handler (28 fixed scenarios exhaustively, generated ones bounded): no panic, a follow-up request completes (no mutex held), accounting still evicts correctly.",
        "level_note": TRUSTED + "; Go runtime faketime clock; the verif hook cache.afterGet. Freshness is asserted only beyond Expiration + 1 s (second-granular clocks); clock ticks while a request sits inside a critical section are not judged.",
        "rule": "case = timed history / scheduled scenario x schedule / parallel burst; non-trivial = history with at least one hit and one expiry or eviction, resp. a distinct interleaving; distinct by case id and schedule key",
        "subs": [
            {"engine": "cache", "mode": "vt", "shards": {Q: 16, T: 16}, "reps": {Q: 1, T: 4}, "min_nontrivial": {Q: 3000, T: 30000},
             "require_stats": {"hook.cache.afterGet": 1000}, "timeout": {Q: 900, T: 3400}},
            {"engine": "cache.race", "mode": "race", "shards": {Q: 2, T: 4}, "reps": {Q: 1, T: 2}, "min_nontrivial": {Q: 2, T: 2},
             "timeout": {Q: 900, T: 3000}},
        ],
    },

    "C07": {
        "level": "exploration",
        "technique": "runtime monitor: grammar-aware + byte-mutated requests through ServeConn into a kitchen-sink handler; process-survival with journal attribution under an address-space limit, strict independent response parser, allocation budget per request (MemStats), response-helper injection oracle (expected header-name multiset)",
        "level_text": "Request byte strings from a grammar-aware generator (request line, Range/Accept*/Cookie/Content-Encoding/X-Forwarded-*/conditional headers, chunked and length-framed bodies, multipart, gzip/deflate/br/zstd bodies valid and truncated, flash cookies incl. huge announced sizes) plus byte-level mutation and pipelining are served through fasthttp's ServeConn into a handler that calls every accessor, under 8 configurations; the process must survive (each input is journalled first; fatal candidates run in a child), the bytes written back must parse with the strict parser and match the requests in count and order, TotalAlloc per request must stay within 256 KiB + 64 B per request byte (+ the announced body), and unknown methods / oversized headers / oversized bodies / bad request lines must get 501/431/413/400. In inject mode attacker-chosen strings (all byte values) are passed to exactly one response helper per request; the parsed response must contain exactly the helper's header names and body.",
        "level_note": TRUSTED + "; a control byte other than CR/LF inside the value the handler itself passed to a helper is counted, not judged (it adds no header line and is outside a header helper's documented domain); the hang clause relies on the driver's watchdog.",
        "rule": "case = one connection script (1-4 requests) x config, or one (helper, attacker string); non-trivial = request that reached the handler or a distinct error class; distinct by (config, status/error class, accessor outcome) resp. (helper, byte class, string)",
        "subs": [
            {"engine": "wire.survive", "oom_is_violation": True, "mode": "plain", "shards": {Q: 16, T: 16}, "gomaxprocs": 1, "ulimit_kb": 1572864,
             "env": {"MALLOC_ARENA_MAX": 1}, "min_nontrivial": {Q: 8000, T: 150000}, "timeout": {Q: 600, T: 3000}},
            {"engine": "wire.inject", "oom_is_violation": True, "mode": "plain", "shards": {Q: 16, T: 16}, "gomaxprocs": 1, "ulimit_kb": 1572864,
             "env": {"MALLOC_ARENA_MAX": 1}, "min_nontrivial": {Q: 800, T: 1500}, "timeout": {Q: 300, T: 900}},
            {"engine": "wire.survive", "oom_is_violation": True, "mode": "race", "shards": {Q: 2, T: 4}, "tiers": [T], "timeout": {T: 3400}},
        ],
    },
    "C12": {
        "level": "exploration",
        "technique": "runtime monitor: three-request redirect scripts through ServeConn with a conforming cookie client (strict Set-Cookie parsing), independent reference decoder for the issued cookie, hostile-cookie family with allocation budget",
        "level_text": "Handler A attaches messages (keys/values/levels over all bytes, 0-8 messages) and old input to a redirect; a conforming client stores the Set-Cookie only if well-formed and replays it; handler B must report exactly the attached set, the response must expire the cookie so the third request sees nothing; requests without the cookie see nothing. Hostile cookies (arbitrary bytes, every truncation of valid encodings, huge announced sizes, trailing bytes) must yield no messages within the allocation budget.",
        "level_note": TRUSTED + "; valid MessagePack with missing/extra fields yielding empty-field messages is counted, not judged; values outside RFC 6265 cookie-octets that a section 5.2 user agent still stores are counted, not judged; decode *time* is not measured (no wall clock in oracles).",
        "rule": "case = one 3-step script or one hostile cookie; non-trivial = script with >=1 message completed through all steps, or a hostile cookie that reached the decoder; distinct by message set / cookie bytes",
        "subs": [
            {"engine": "wire.flash", "mode": "plain", "shards": {Q: 16, T: 16}, "gomaxprocs": 1, "ulimit_kb": 1572864,
             "env": {"MALLOC_ARENA_MAX": 1}, "min_nontrivial": {Q: 250, T: 1500}, "timeout": {Q: 600, T: 3000}},
        ],
    },

    "C17": {
        "level": "fault_enumeration",
        "technique": "runtime monitor under virtual time: deterministic scheduler over instrumented storage + locker (exhaustive DFS for 2-3 duplicates), single storage/lock faults enumerated per call index x schedule, porcupine linearizability of the execute-or-replay register; mutual-exclusion monitor on the real MemoryLock; race-detector stress",
        "level_text": "2-4 duplicate, other-key, keyless and safe-method requests are interleaved at every boundary of the middleware (fast-path Get, Lock, re-check Get, handler entry/exit, Set, Unlock): on every schedule at most one successful handler completion per key, every answered duplicate byte-equal (status, body, kept headers as multisets) to that execution, unaffected bystanders, no deadlock or panic, linearizable register. Every single fault (Get#n, Lock#n, Set#n, Unlock#n, unlock-error#n) is injected on each call index over all schedules of 2 workers: a failed Lock or lookup yields an error response and no handler entry. Lifetime expiry on the fake clock; the real MemoryLock under the scheduler (overlap counter <= 1 per key); 64 goroutines x 8 keys under the race detector.",
        "level_note": TRUSTED + "; Go runtime faketime clock; porcupine. Framing headers (Transfer-Encoding, Content-Length, Connection, Keep-Alive, Date) are excluded from the header comparison; failed handler executions are unconstrained (the statement speaks of successful completions).",
        "rule": "case = scenario x schedule (x fault plan); non-trivial = schedule in which two duplicates are both past the fast-path miss before one stores; distinct by schedule key; fault plans = (scenario, call kind, call index)",
        "subs": [
            {"engine": "idem", "mode": "vt", "shards": {Q: 16, T: 16}, "min_nontrivial": {Q: 10000, T: 500000},
             "require_stats": {"fault_plans_fired.get": 1, "fault_plans_fired.lock": 1, "fault_plans_fired.set": 1, "overlap_schedules": 1000},
             "timeout": {Q: 600, T: 3400}},
            {"engine": "idem.race", "mode": "race", "shards": {Q: 2, T: 8}, "min_nontrivial": {Q: 2, T: 2}, "timeout": {Q: 600, T: 3000}},
        ],
    },
}

HOOK_COMMITS = ["d290bd8", "d29431c"]
NOT_APPLICABLE = {}
