"""Per-property table of sub-checks (engine, build mode, shards, thresholds). See DESIGN.md 3.

Fields of a sub-check:
  engine   name registered in harness/cmd/vh
  mode     plain | vt | race        (build mode, DESIGN 2.1)
  shards   {tier: processes}        cases are striped over the shards
  reps     {tier: n}                repeat the whole sub-check n times with derived seeds (race runs)
  tiers    which tiers run it (default both)
  gomaxprocs, ulimit_kb, timeout {tier: s}, env
  min_nontrivial {tier: n}          observation threshold (below it the run is inconclusive)
  require_stats {name: min}         boundary/hook hit counters that must be reached
  hang_is_violation                 a watchdog kill is confirmed on the single case and then counts
"""

Q, T = "quick", "thorough"

TRUSTED = ("Go runtime and compiler; the harness itself (generators, oracles, strict parser); "
           "fasthttp as the transport the code under test is built on")

PROPS = {
    "SMOKE": {
        "claimed": False,
        "level": "exploration",
        "rule": "smoke test of the driver",
        "subs": [
            {"engine": "smoke", "mode": "plain", "shards": {Q: 2, T: 2}},
            {"engine": "smoke", "mode": "vt", "shards": {Q: 2, T: 2}},
            {"engine": "smoke", "mode": "race", "shards": {Q: 1, T: 1}},
        ],
    },
    "C01": {
        "level": "exploration",
        "technique": "runtime monitor: solo-differential oracle over generated route tables (real dispatch vs registration-order filter of routes observed alone)",
        "level_text": "Generated route tables (methods, Use prefixes, groups, Route chains, duplicates, path/method-overriding handlers) are dispatched through App.Handler(); the handler trace, status and Allow set of every request are compared with the registration-order composition of per-route match decisions observed on singleton apps built by the same API call. Held on the sampled tables/requests/configs; not a proof.",
        "level_note": TRUSTED + "; per-route decisions are observed on the real router in isolation, so a defect that changes a route's behaviour identically alone and in company is invisible here (C02/C03 judge single routes).",
        "rule": "case = (config, route table of 1-14 API calls, 40-60 requests); non-trivial = expected trace has >=2 handlers, or path <=3 bytes (index boundary), or a path/method override fires, or the answer is 405; distinct by (config, expected trace, method, path, status)",
        "subs": [
            {"engine": "route.dispatch", "mode": "plain", "shards": {Q: 16, T: 16},
             "min_nontrivial": {Q: 2000, T: 100000}, "require_stats": {"overrides": 100, "status405": 100}},
        ],
    },
    "C02": {
        "level": "exploration",
        "technique": "runtime monitor: in-handler invariant (Params reproduce the path, constraints hold) over generated patterns and hostile paths",
        "level_text": "Patterns are generated as token lists (named/optional/greedy parameters, escaped literals, every built-in constraint and a custom one, up to two constraints per parameter); for every request that reaches the handler the monitor re-substitutes Params into the token list and evaluates each constraint with an independent three-valued evaluator written from the documentation; requests with violating values must get 404. Held on the sampled patterns/paths.",
        "level_note": TRUSTED + "; constraint semantics where the documentation is silent (e.g. '+5' for int, 'inf' for float, non-ASCII letters for alpha) are treated as unknown and never asserted.",
        "rule": "case = (pattern, config, 30-40 paths incl. the pattern text itself, valid fillings, one-value-violating fillings, mutations); non-trivial = request to a pattern with >=1 constrained parameter (handler ran, or correctly rejected); distinct by (pattern, path)",
        "subs": [
            {"engine": "route.sound", "mode": "plain", "shards": {Q: 16, T: 16},
             "min_nontrivial": {Q: 20000, T: 400000}, "require_stats": {"ran": 1000, "not_run": 1000}},
        ],
    },
    "C03": {
        "level": "exploration",
        "technique": "runtime monitor: by-construction oracle, bounded-exhaustive enumeration of delimited patterns x legal fillings x 8 configs, plus RoutePatternMatch-vs-dispatch differential",
        "level_text": "All delimited patterns of up to 4 (quick) / 6 (thorough) items over a 10-item alphabet, all legal fillings over a 6-value alphabet and the 8 routing configurations are dispatched through a real app (so the 3-byte index is in the loop); match and captured values are known by construction; case, trailing-slash and percent variants and RoutePatternMatch are compared with the dispatch decision. Exhaustive for the bounded space, sampled beyond it (random patterns up to 10 items).",
        "level_note": TRUSTED + "; the legality side-condition of the statement is implemented conservatively (overlapping and case-folded occurrences of a following literal also exclude a filling).",
        "rule": "enumerated: every item string in the delimited class x every legal filling x 8 configs; random: patterns of 3-10 items x 6 fillings; non-trivial = pattern with >=1 parameter; distinct by (pattern, path, config)",
        "exhaustive_stat": "route.complete.enum_space_complete",
        "subs": [
            {"engine": "route.complete", "mode": "plain", "shards": {Q: 16, T: 16},
             "min_nontrivial": {Q: 100000, T: 300000}, "require_stats": {"enum_patterns": 1000},
             "timeout": {Q: 600, T: 3000}},
        ],
    },
    "C04": {
        "level": "exploration",
        "technique": "runtime monitor: differential between two real compositions (mounted sub-apps vs Group(prefix) registration; groups vs spelled-out paths)",
        "level_text": "Generated trees of apps/groups (nesting <=3, <=4 mounts, prefixes '/', trailing slash, parameterised, routes added after mounting) are built twice from the same handler set - with Use(prefix, subApp) and with Group(prefix) at the same position - and answer the same requests; handler trace, every declared parameter, status and body must agree. Same for Group prefixes vs full paths. Held on the sampled trees/requests.",
        "level_note": TRUSTED + "; both sides are the real framework, so a defect common to mounting and grouping is invisible here (C01-C03 judge routing itself).",
        "rule": "case = (config, tree of <=14 route statements, 40-60 requests); non-trivial = request whose trace enters a mounted app (resp. a group); distinct by (case, method, path)",
        "subs": [
            {"engine": "route.mount", "mode": "plain", "shards": {Q: 16, T: 16},
             "min_nontrivial": {Q: 1000, T: 50000}},
        ],
    },
}

HOOK_COMMITS = []
NOT_APPLICABLE = {}
