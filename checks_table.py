"""Per-property table of sub-checks (engine, build mode, shards, thresholds). See DESIGN.md 3."""

Q, T = "quick", "thorough"

PROPS = {
    "SMOKE": {
        "claimed": False,
        "level": "exploration",
        "rule": "smoke test of the driver",
        "subs": [
            {"engine": "smoke", "mode": "plain", "shards": {Q: 2, T: 2}},
            {"engine": "smoke", "mode": "vt", "shards": {Q: 2, T: 2}},
            {"engine": "smoke", "mode": "race", "shards": {Q: 1, T: 1}},
        ],
    },
}

HOOK_COMMITS = []
NOT_APPLICABLE = {}
